"""C19 — DeepJSCC pipelines are differentiable end to end and keep their shape contract."""
import contextlib, io, math
from fractions import Fraction
from ..runner import Op

ID = "C19"
KINDS = {"U": ["layer_same", "layer_half", "layer_double", "encoder_stack", "decoder_stack", "shape_roundtrip", "bandwidth_ratio",
               "total_power_differentiable", "total_power_hasFDerivAt", "total_power_fderiv_apply", "average_power_differentiable", "additive_fixed_noise_differentiable", "fading_fixed_differentiable", "awgn_snr_differentiableAt"],
         "K": ["seq_archs_ok", "all_layers_classified"], "R": ["seq_arch_shape"]}
PARTIAL = ["gradient VALUES are autograd's: the theorems say that the real-valued stage models are differentiable (everywhere, resp. away from the zero signal in SNR mode); that torch's autograd "
           "computes those derivatives is trusted and cross-checked by central finite differences in float64 under a frozen RNG (a test), as is 'the loss gradient reaches every encoder parameter'",
           "the spatial-size theorem covers architectures whose encoder / decoder are plain stacks (Bourtsoulatze, Kurka): for the residual / attention architectures (Tung, Yilmaz) only 'every conv-like "
           "layer is size-preserving, halving or doubling on even sizes' is kernel-checked and the end-to-end shape is tested on the implementation",
           "PAPR clipping and peak clamping are differentiable only away from their kinks (inputs are drawn away from them)"]
RULE = ("cchain / cclass / nfilters lines (real module hyper-parameters and measured latent / output sizes vs the layer arithmetic); tests on the implementation: shape contract and output range of every bundled "
        "encoder/decoder pair with reduced widths x image sizes {16,32,48,64} x batch sizes {1,2,5}; autograd vs central differences for every analog channel and constraint, real and complex, "
        "power and SNR parameterisations; finite non-zero gradients on every encoder parameter through constraint + channel + decoder")
ASSUMPTIONS = ["torch.manual_seed freezes the noise realisation across the evaluations of one finite-difference quotient", "SNR-mode stages round the noise power to float32: differences use step 2e-3 and tolerance 3e-3, others 1e-6 / 1e-6"]

SIZES = (16, 32, 48, 64)


def quiet(fn, *a, **k):
    with contextlib.redirect_stdout(io.StringIO()):
        return fn(*a, **k)


def layers_of(m):
    import torch.nn as nn
    out = []
    for _, mod in m.named_modules():
        if isinstance(mod, nn.ConvTranspose2d):
            out.append(("t", mod.kernel_size[0], mod.stride[0], mod.padding[0], mod.output_padding[0]))
        elif isinstance(mod, nn.Conv2d):
            out.append(("c", mod.kernel_size[0], mod.stride[0], mod.padding[0]))
        elif isinstance(mod, nn.PixelShuffle):
            out.append(("s", mod.upscale_factor))
    return out


def classify(l):
    if l[0] == "c":
        _, k, s, p = l
        if s == 1 and k == 2 * p + 1:
            return "same"
        if s == 2 and k in (2 * p + 1, 2 * p + 2):
            return "half"
        return None
    if l[0] == "t":
        _, k, s, p, op = l
        if s == 1 and k == 2 * p + 1 and op == 0:
            return "same"
        if s == 2 and k + op == 2 * p + 2:
            return "double"
        return None
    return {1: "same", 2: "double"}.get(l[1])


def stack_class(ls, which):
    a = 0
    for l in ls:
        c = classify(l)
        if c == "same":
            continue
        if c == ("half" if which == "enc" else "double"):
            a += 1
        else:
            return None
    return a


def lstr(ls):
    return ";".join(",".join(str(v) for v in l) for l in ls) or "-"


def lean_layer(l):
    return {"c": ".conv %d %d %d", "t": ".tconv %d %d %d %d", "s": ".shuffle %d"}[l[0]] % tuple(l[1:])


_ARCH = {}


def archs():
    """bundled encoder / decoder pairs with reduced widths: name -> (enc, dec, run) where run(x) -> (latent, output)"""
    if _ARCH:
        return _ARCH
    import torch
    from kaira.models import image as I
    csi = lambda x: torch.ones(x.shape[0], 1)
    e, d = I.Bourtsoulatze2019DeepJSCCEncoder(8), I.Bourtsoulatze2019DeepJSCCDecoder(8)
    _ARCH["bourtsoulatze2019"] = (e, d, lambda x, e=e, d=d: (e(x), d(e(x))), (0.0, 1.0))
    e, d = I.Tung2022DeepJSCCQEncoder(16, 8), I.Tung2022DeepJSCCQDecoder(16, 8)
    _ARCH["tung2022_q"] = (e, d, lambda x, e=e, d=d: (e(x), d(e(x))), None)
    e, d = I.Tung2022DeepJSCCQ2Encoder(16, 8), I.Tung2022DeepJSCCQ2Decoder(16, 8)
    _ARCH["tung2022_q2"] = (e, d, lambda x, e=e, d=d: (e(x, csi(x)), d(e(x, csi(x)), csi(x))), None)
    e, d = I.Yilmaz2023DeepJSCCNOMAEncoder(N=16, M=8, in_ch=3, csi_length=1), I.Yilmaz2023DeepJSCCNOMADecoder(N=16, M=8, out_ch_per_device=3, csi_length=1, num_devices=1)
    _ARCH["yilmaz2023_noma"] = (e, d, lambda x, e=e, d=d: (e(x, csi(x)), d(e(x, csi(x)), csi(x))), None)
    e = I.Yilmaz2024DeepJSCCWZSmallEncoder(16, 8); d = I.Yilmaz2024DeepJSCCWZSmallDecoder(16, 8, e)
    _ARCH["yilmaz2024_wz_small"] = (e, d, lambda x, e=e, d=d: (e(x, csi(x)), d(e(x, csi(x)), x, csi(x))), None)
    e, d = I.Yilmaz2024DeepJSCCWZEncoder(16, 8), I.Yilmaz2024DeepJSCCWZDecoder(16, 8)
    _ARCH["yilmaz2024_wz"] = (e, d, lambda x, e=e, d=d: (e(x, csi(x)), d(e(x, csi(x)), x, csi(x))), None)
    e, d = I.DeepJSCCFeedbackEncoder(256), I.DeepJSCCFeedbackDecoder(3)
    _ARCH["kurka2020_feedback"] = (e, d, lambda x, e=e, d=d: (e(x), d(e(x))), (0.0, 1.0))
    return _ARCH


_MEAS = {}


def measure(name, H, B=1):
    import torch
    key = (name, H, B)
    if key not in _MEAS:
        e, d, run, rng_ = archs()[name]
        try:
            with torch.no_grad():
                g = torch.Generator().manual_seed(H * 7 + B)
                z, y = quiet(run, torch.rand(B, 3, H, H, generator=g))
            _MEAS[key] = {"latent": list(z.shape), "out": list(y.shape), "min": float(y.min()), "max": float(y.max()), "finite": bool(torch.isfinite(y).all())}
        except Exception as ex:
            _MEAS[key] = {"error": "%s: %s" % (type(ex).__name__, str(ex)[:120])}
    return _MEAS[key]


def sequential(name):
    """(enc layers, dec layers, a) if both stacks classify and the layer arithmetic reproduces the measured sizes"""
    e, d, _, _ = archs()[name]
    le, ld = layers_of(e), layers_of(d)
    ae, ad = stack_class(le, "enc"), stack_class(ld, "dec")
    if ae is None or ad is None or ae != ad:
        return None
    for H in (16, 32):
        m = measure(name, H)
        if "error" in m or m["latent"][-1] != H // 2 ** ae or m["out"][-1] != H:
            return None
    return le, ld, ae


def extract(ctx):
    seq, allv = [], []
    for name in archs():
        e, d, _, _ = archs()[name]
        le, ld = layers_of(e), layers_of(d)
        allv.append('  ("%s", [%s])' % (name, ", ".join(lean_layer(l) for l in le + ld)))
        s = sequential(name)
        if s:
            seq.append('  ("%s", [%s], [%s], %d)' % (name, ", ".join(lean_layer(l) for l in s[0]), ", ".join(lean_layer(l) for l in s[1]), s[2]))
    return ("-- generated from /repo: kernel / stride / padding of every Conv2d, ConvTranspose2d, PixelShuffle of the bundled image architectures (reduced widths)\n"
            "import Kaira.Conv\nopen Kaira.Conv\nnamespace Generated.C19\n"
            "/-- architectures whose encoder and decoder are plain stacks: (name, encoder layers, decoder layers, number of halvings) -/\n"
            "def seqArchs : List (String × List Layer × List Layer × Nat) := [\n" + ",\n".join(seq) + "]\n"
            "/-- every conv-like layer of every architecture, in module order -/\n"
            "def allArchs : List (String × List Layer) := [\n" + ",\n".join(allv) + "]\nend Generated.C19\n")


def fd_check(f, x, seed, eps, trials=2):
    """directional derivative by central differences vs autograd, float64, frozen RNG; returns the worst relative deviation"""
    import torch
    D = torch.float64
    worst, detail = 0.0, None
    for t in range(trials):
        g = torch.Generator().manual_seed(100 + t)
        v = torch.randn(x.shape, dtype=D, generator=g)
        if x.is_complex():
            v = torch.complex(v, torch.randn(x.shape, dtype=D, generator=g))
        xr = x.clone().requires_grad_(True)
        torch.manual_seed(seed); y = f(xr)
        if not y.requires_grad:
            return float("inf"), "output does not require grad (graph detached)"
        w = torch.randn(y.shape, dtype=D, generator=g)
        if y.is_complex():
            w = torch.complex(w, torch.randn(y.shape, dtype=D, generator=g))
        S = lambda yy: ((yy * w.conj()).real.sum() if yy.is_complex() else (yy * w).sum())
        (gr,) = torch.autograd.grad(S(y), xr)
        if not bool(torch.isfinite(torch.view_as_real(gr) if gr.is_complex() else gr).all()):
            return float("inf"), "non-finite gradient"
        ad = (torch.view_as_real(gr) * torch.view_as_real(v)).sum() if x.is_complex() else (gr * v).sum()

        def val(xx):
            torch.manual_seed(seed)
            return S(f(xx))
        num = (val(x + eps * v) - val(x - eps * v)) / (2 * eps)
        # relative to the size of the derivative in this direction, but not below 5 % of |grad|.|v|: a direction that happens to be
        # nearly orthogonal to the gradient has a tiny quotient, and the float32 rounding of SNR-mode noise powers then dominates
        # (vp check, VERIF_SEED=1: RayleighFadingChannel(snr), quotient 0.0134, absolute difference 9e-5 - a false alarm of this check)
        gn = float(torch.linalg.vector_norm(torch.view_as_real(gr) if gr.is_complex() else gr)) * float(torch.linalg.vector_norm(torch.view_as_real(v) if v.is_complex() else v))
        rel = abs(float(ad) - float(num)) / max(abs(float(num)), 0.05 * gn, 1e-9)
        if rel > worst:
            worst, detail = rel, {"autograd": float(ad), "finite_difference": float(num)}
    return worst, detail


def stages():
    import torch
    from kaira.channels import analog as A
    from kaira.constraints.power import TotalPowerConstraint, AveragePowerConstraint, PAPRConstraint
    from kaira.constraints.antenna import PerAntennaPowerConstraint
    from kaira.constraints.signal import PeakAmplitudeConstraint
    return {
        "AWGNChannel(power)": (lambda: A.AWGNChannel(avg_noise_power=0.1), False),
        "AWGNChannel(snr)": (lambda: A.AWGNChannel(snr_db=10.0), True),
        "LaplacianChannel(power)": (lambda: A.LaplacianChannel(avg_noise_power=0.1), False),
        "LaplacianChannel(scale)": (lambda: A.LaplacianChannel(scale=0.2), False),
        "LaplacianChannel(snr)": (lambda: A.LaplacianChannel(snr_db=10.0), True),
        "PhaseNoiseChannel": (lambda: A.PhaseNoiseChannel(0.1), False),
        "FlatFadingChannel(rayleigh,power)": (lambda: A.FlatFadingChannel("rayleigh", 4, avg_noise_power=0.1), False),
        "FlatFadingChannel(rician,snr)": (lambda: A.FlatFadingChannel("rician", 4, k_factor=2.0, snr_db=10.0), True),
        "RayleighFadingChannel(snr)": (lambda: A.RayleighFadingChannel(coherence_time=3, snr_db=5.0), True),
        "NonlinearChannel(tanh,power)": (lambda: A.NonlinearChannel(torch.tanh, add_noise=True, avg_noise_power=0.05), False),
        "NonlinearChannel(cubic,snr)": (lambda: A.NonlinearChannel(lambda t: t + 0.1 * t ** 3, add_noise=True, snr_db=15.0), True),
        "NonlinearChannel(polar)": (lambda: A.NonlinearChannel(lambda t: t / (1 + 0.3 * t), add_noise=False, complex_mode="polar"), False),
        "NonlinearChannel(cartesian)": (lambda: A.NonlinearChannel(torch.tanh, add_noise=True, avg_noise_power=0.02, complex_mode="cartesian"), False),
        "TotalPowerConstraint": (lambda: TotalPowerConstraint(2.0), False),
        "AveragePowerConstraint": (lambda: AveragePowerConstraint(0.5), False),
        "PAPRConstraint": (lambda: PAPRConstraint(max_papr=3.0), False),
        # tight limits: the clipping loop runs into its late, more aggressive stage (more than 8 rounds)
        "PAPRConstraint(1.3)": (lambda: PAPRConstraint(max_papr=1.3), False),
        "PAPRConstraint(1.2)": (lambda: PAPRConstraint(max_papr=1.2), False),
        "PAPRConstraint(2.0)": (lambda: PAPRConstraint(max_papr=2.0), False),
        "PerAntennaPowerConstraint": (lambda: PerAntennaPowerConstraint(uniform_power=0.7), False),
        "PeakAmplitudeConstraint": (lambda: PeakAmplitudeConstraint(1.0), False),
    }


def corr(ctx):
    import torch
    rng = ctx.rng
    ops = []
    # ---------------- layer arithmetic: the real hyper-parameters and measured sizes against the model
    for name in archs():
        e, d, _, orange = archs()[name]
        le, ld = layers_of(e), layers_of(d)
        for l in le + ld:
            ops.append(Op("cclass %s %s" % ("dec" if l[0] in "ts" else "enc", lstr([l])), {"same": "0", "half": "1", "double": "1"}.get(classify(l), "none"), nontrivial=True,
                          info={"site": "models.image:%s.layers" % name, "config": {"layer": list(l)}}, prop_ok=classify(l) is not None))
        s = sequential(name)
        for H in SIZES:
            m = measure(name, H)
            if s and "error" not in m:
                ops.append(Op("cchain %s %d" % (lstr(s[0]), H), str(m["latent"][-1]), nontrivial=True, info={"site": "models.image:%s.encoder" % name, "config": {"H": H, "latent": m["latent"]}}))
                ops.append(Op("cchain %s %d" % (lstr(s[1]), m["latent"][-1]), str(m["out"][-1]), nontrivial=True, info={"site": "models.image:%s.decoder" % name, "config": {"H": H, "out": m["out"]}}))
        ctx.count("arch_layers")
    # ---------------- shape contract and range of every pair (tests of the implementation)
    batches = (1, 2, 5)
    for name in archs():
        e, d, _, orange = archs()[name]
        for H in SIZES:
            for B in (batches if ctx.thorough or name in ("bourtsoulatze2019", "tung2022_q") else (1, 2)):
                if name == "kurka2020_feedback" and (H > 32 or B > 2) and not ctx.thorough:
                    continue
                m = measure(name, H, B)
                ok = "error" not in m and m["out"] == [B, 3, H, H] and m["finite"] and m["latent"][0] == B and (orange is None or (m["min"] >= orange[0] and m["max"] <= orange[1]))
                ops.append(Op("gray 0", "0", nontrivial=True, info={"site": "models.image:%s.shape" % name, "config": dict(m, H=H, B=B, documented_range=orange)}, prop_ok=ok))
                ctx.count("shape_cases")
    # bandwidth ratio of the Bourtsoulatze pair and the filter-count formula
    from kaira.utils import calculate_num_filters_factor_image
    for L in (1, 2, 3, 4):
        for (num, den) in ((1, 6), (1, 12), (1, 3), (1, 4), (1, 16), (1, 48), (1, 5)):
            for ch in (1, 3):
                for cx in (False, True):
                    try:
                        f = str(calculate_num_filters_factor_image(L, num / den, channels=ch, is_complex_transmission=cx))
                    except AssertionError:
                        f = "reject"
                    exact = (ch * 4 ** L * num * (2 if cx else 1)) % den == 0
                    fl = (ch * 4 ** L * (2 if cx else 1)) * (num / den)
                    if exact != float(fl).is_integer():
                        ctx.skipped_by_margin += 1      # the float product rounds across an integer: outside the exact model
                        continue
                    ops.append(Op("nfilters %d %d %d %d %d" % (L, num, den, ch, cx), f, nontrivial=True, info={"site": "utils:calculate_num_filters_factor_image", "config": {"L": L, "ratio": "%d/%d" % (num, den), "channels": ch, "complex": cx}}))
    ctx.count("filter_formula")
    from kaira.models import image as I
    for nf in (4, 8, 16):
        for H in (16, 32):
            z = I.Bourtsoulatze2019DeepJSCCEncoder(nf)(torch.rand(2, 3, H, H))
            ratio = Fraction(z[0].numel(), 3 * H * H)
            ops.append(Op("nfilters 2 %d %d 3 0" % (ratio.numerator, ratio.denominator), str(nf), nontrivial=True, info={"site": "models.image:bourtsoulatze2019.bandwidth", "config": {"filters": nf, "H": H, "ratio": str(ratio)}}))
    # ---------------- gradients: autograd vs central differences, float64, frozen RNG
    D = torch.float64
    for sname, (mk, snr_mode) in stages().items():
        for cplx in (False, True):
            if sname == "PeakAmplitudeConstraint" and cplx:
                continue
            for shape in ((2, 24), (2, 3, 8), (1, 16), (20,), (5, 6), (1, 2, 8)) if ctx.thorough else ((2, 24), (2, 3, 8), (1, 16), (20,)):
                if sname == "PerAntennaPowerConstraint" and len(shape) < 3:
                    continue
                if sname in ("NonlinearChannel(polar)", "NonlinearChannel(cartesian)") and not cplx:
                    continue
                g = torch.Generator().manual_seed(ctx.seed * 31 + len(shape))
                x = torch.randn(shape, dtype=D, generator=g) * rng.choice([0.3, 1.0, 4.0])
                if cplx:
                    x = torch.complex(x, torch.randn(shape, dtype=D, generator=g))
                if sname == "PeakAmplitudeConstraint" or sname.startswith("PAPRConstraint"):
                    pass     # piecewise smooth: random inputs are almost surely away from the kinks
                try:
                    st = mk()
                    dev, detail = fd_check(lambda t: st(t), x, seed=5 + ctx.seed, eps=(2e-3 if snr_mode else 1e-6))
                    tol = 3e-3 if snr_mode else 2e-6
                    if (sname == "PeakAmplitudeConstraint" or sname.startswith("PAPRConstraint")) and dev > tol:
                        dev2, detail2 = fd_check(lambda t: st(t), x, seed=5 + ctx.seed, eps=1e-8)
                        dev, detail = min(dev, dev2), detail2 if dev2 < dev else detail
                        tol = 1e-4
                    ok = dev <= tol
                except Exception as ex:
                    dev, detail, ok = float("inf"), "%s: %s" % (type(ex).__name__, str(ex)[:120]), False
                ops.append(Op("gray 0", "0", nontrivial=True, info={"site": "gradients:%s" % sname, "config": {"complex": cplx, "shape": list(shape), "relative_deviation": dev, "detail": detail}}, prop_ok=ok))
                ctx.count("gradient_cases")
    # ---------------- power normalisation: autograd's Jacobian-vector product against the closed form proved in Lean
    # (total_power_hasFDerivAt: Df(x).v = s v - s/(|x|^2+eps) <x,v> x, s = sqrt(P/(|x|^2+eps)); the per-sample form is the same with P.m, eps.m)
    from kaira.constraints.power import TotalPowerConstraint as TPC, AveragePowerConstraint as APC
    for cname, C, per_sample in (("TotalPowerConstraint", TPC(2.0), False), ("AveragePowerConstraint", APC(0.5), True)):
        for cplx in (False, True):
            for shape in ((3, 16), (1, 12), (2, 3, 4), (10,)):
                g = torch.Generator().manual_seed(ctx.seed * 17 + len(shape) + 3)
                x = torch.randn(shape, dtype=D, generator=g) * rng.choice([0.2, 1.0, 5.0])
                v = torch.randn(shape, dtype=D, generator=g)
                if cplx:
                    x = torch.complex(x, torch.randn(shape, dtype=D, generator=g)); v = torch.complex(v, torch.randn(shape, dtype=D, generator=g))
                try:
                    _, jv = torch.autograd.functional.jvp(lambda t: C(t), (x,), (v,))
                    P0 = float(C.total_power) if hasattr(C, "total_power") else float(C.average_power)
                    items_x = x.reshape(1, -1) if x.dim() == 1 else x.reshape(x.shape[0], -1)
                    items_v = v.reshape(items_x.shape)
                    want = torch.zeros_like(items_x)
                    for i in range(items_x.shape[0]):
                        xi, vi = items_x[i], items_v[i]
                        m_ = xi.numel()
                        Pm, em = (P0 * m_, 1e-8 * m_) if per_sample else (P0, 1e-8)
                        c_ = float((xi.abs() ** 2).sum())
                        s_ = math.sqrt(Pm / (c_ + em))
                        ip = float((xi.conj() * vi).real.sum()) if cplx else float((xi * vi).sum())
                        want[i] = s_ * vi - (s_ / (c_ + em)) * ip * xi
                    dev = float((jv.reshape(items_x.shape) - want).abs().max() / (want.abs().max() + 1e-30))
                    ok = dev <= 1e-9
                except Exception as ex:
                    dev, ok = "%s: %s" % (type(ex).__name__, str(ex)[:100]), False
                ops.append(Op("gray 0", "0", nontrivial=True, info={"site": "gradients:%s.closed_form" % cname, "config": {"complex": cplx, "shape": list(shape), "relative_deviation": dev, "detail": "autograd JVP vs the derivative proved in Lean"}}, prop_ok=ok))
                ctx.count("closed_form_jvp")
    # ---------------- end to end: the loss gradient reaches every encoder parameter
    from kaira.models.deepjscc import DeepJSCCModel
    from kaira.channels import analog as A
    from kaira.constraints.power import TotalPowerConstraint, AveragePowerConstraint, PAPRConstraint
    from kaira.constraints.composite import CompositeConstraint
    e2e = [("avg+awgn_snr", lambda: AveragePowerConstraint(1.0), lambda: A.AWGNChannel(snr_db=10.0)),
           ("total+awgn_power", lambda: TotalPowerConstraint(50.0), lambda: A.AWGNChannel(avg_noise_power=0.05)),
           ("papr+laplacian", lambda: CompositeConstraint([AveragePowerConstraint(1.0), PAPRConstraint(max_papr=4.0)]), lambda: A.LaplacianChannel(snr_db=12.0)),
           ("avg+nonlinear", lambda: AveragePowerConstraint(1.0), lambda: A.NonlinearChannel(torch.tanh, add_noise=True, snr_db=15.0))]
    for aname in ("bourtsoulatze2019", "tung2022_q"):
        from kaira.models import image as I2
        for cname, mkc, mkch in e2e:
            for (H, B) in (((16, 1), (32, 2), (48, 5), (64, 1)) if ctx.thorough else ((16, 2), (32, 1))):
                # a parameter counts as reached when its gradient is finite in every run and non-zero in at least one of up to
                # four random initialisations / inputs (a unit that is dead for one initialisation is not a detached graph)
                try:
                    names, nonzero, broken_ = None, set(), set()
                    shape_ok = True
                    for attempt in range(4):
                        torch.manual_seed(11 + ctx.seed + 97 * attempt)
                        enc, dec = (I2.Bourtsoulatze2019DeepJSCCEncoder(8), I2.Bourtsoulatze2019DeepJSCCDecoder(8)) if aname == "bourtsoulatze2019" else (I2.Tung2022DeepJSCCQEncoder(32, 16), I2.Tung2022DeepJSCCQDecoder(32, 16))
                        model = DeepJSCCModel(enc, mkc(), mkch(), dec)
                        x = torch.rand(B, 3, H, H)
                        y = quiet(model, x)
                        shape_ok = shape_ok and tuple(y.shape) == tuple(x.shape)
                        ((y - x) ** 2).mean().backward()
                        names = [n for n, _ in enc.named_parameters()]
                        for n, p_ in enc.named_parameters():
                            if p_.grad is None or not bool(torch.isfinite(p_.grad).all()):
                                broken_.add(n)
                            elif float(p_.grad.abs().sum()) != 0.0:
                                nonzero.add(n)
                        if not broken_ and len(nonzero) == len(names):
                            break
                    bad = sorted(broken_ | (set(names) - nonzero))
                    ok = shape_ok and not bad
                    cfg = {"arch": aname, "chain": cname, "H": H, "B": B, "parameters_without_gradient": bad[:6], "n_parameters": len(names), "initialisations_tried": attempt + 1}
                except Exception as ex:
                    ok, cfg = False, {"arch": aname, "chain": cname, "H": H, "B": B, "error": "%s: %s" % (type(ex).__name__, str(ex)[:160])}
                ops.append(Op("gray 0", "0", nontrivial=True, info={"site": "models:DeepJSCCModel.backward", "config": cfg}, prop_ok=ok))
                ctx.count("end_to_end")
    # ---------------- multi-user pipeline (DeepJSCC-NOMA, superposition path): the loss gradient reaches every device's encoder.
    # Reference set: the parameters connected to the output when the encoder is used on its own (parameters its forward never uses
    # are outside the claim); through the pipeline each distinct encoder must have a finite gradient on all of them (graph
    # connectivity - a unit that happens to be dead for one initialisation is not a detached graph) and not all of them zero.
    from kaira.models.image.yilmaz2023_deepjscc_noma import Yilmaz2023DeepJSCCNOMAModel as NM, Yilmaz2023DeepJSCCNOMAEncoder as NE, Yilmaz2023DeepJSCCNOMADecoder as ND
    for D in (2, 3):
        for shared_enc in (False, True):
            for emb in (False, True):
                try:
                    reached_all, ref, shape_ok, bad = None, set(), True, []
                    for attempt in range(3):
                        torch.manual_seed(23 + ctx.seed + 97 * attempt)
                        encs = [NE(N=8, M=4, in_ch=4 if emb else 3, csi_length=1) for _ in range(D)]
                        decs = [ND(N=8, M=4, out_ch_per_device=3, csi_length=1, num_devices=1, shared_decoder=False) for _ in range(D)]
                        B, H = 2, 16
                        csi = torch.full((B, 1), 10.0)
                        quiet(encs[0], torch.rand(B, 4 if emb else 3, H, H), csi).pow(2).sum().backward()
                        ref |= {n for n, p_ in encs[0].named_parameters() if p_.grad is not None}
                        encs[0].zero_grad(set_to_none=True)
                        model = NM(channel=A.AWGNChannel(snr_db=10.0), power_constraint=AveragePowerConstraint(1.0), num_devices=D, M=0.5, latent_dim=4, shared_encoder=shared_enc, shared_decoder=False,
                                   use_perfect_sic=False, use_device_embedding=emb, image_shape=(H, H), csi_length=1, encoder=encs[0] if shared_enc else encs, decoder=decs)
                        x = [torch.rand(B, 3, H, H) for _ in range(D)]
                        out = quiet(model, x, csi=csi)
                        shape_ok = shape_ok and tuple(out.shape) == (B, D, 3, H, H)
                        ((out - torch.stack(x, 1)) ** 2).mean().backward()
                        distinct = list({id(e_): e_ for e_ in model.encoders}.values())
                        got = [{n for n, p_ in e_.named_parameters() if p_.grad is not None and bool(torch.isfinite(p_.grad).all())} for e_ in distinct]
                        dead = ["encoder[%d] (all gradients zero)" % i for i, e_ in enumerate(distinct) if sum(float(p_.grad.abs().sum()) for p_ in e_.parameters() if p_.grad is not None) == 0.0]
                        nonfinite = [n for e_ in distinct for n, p_ in e_.named_parameters() if p_.grad is not None and not bool(torch.isfinite(p_.grad).all())]
                        reached_all = got if reached_all is None or len(reached_all) != len(got) else [a_ | b_ for a_, b_ in zip(reached_all, got)]
                        bad = ["encoder[%d].%s" % (i, n) for i, g_ in enumerate(reached_all) for n in sorted(ref - g_)] + nonfinite + dead
                        if not bad:
                            break
                    ok = shape_ok and not bad and bool(ref)
                    cfg = {"devices": D, "shared_encoder": shared_enc, "use_device_embedding": emb, "distinct_encoders": len(distinct), "parameters_without_gradient": bad[:6], "reference_parameters": len(ref)}
                except Exception as ex:
                    ok, cfg = False, {"devices": D, "shared_encoder": shared_enc, "use_device_embedding": emb, "error": "%s: %s" % (type(ex).__name__, str(ex)[:160])}
                ops.append(Op("gray 0", "0", nontrivial=True, info={"site": "models:Yilmaz2023DeepJSCCNOMAModel.backward", "config": cfg}, prop_ok=ok))
                ctx.count("end_to_end_noma")
    return ops


def search(ctx, mismatches, broken, prop_fail):
    out, seen = [], set()
    for pf in prop_fail + mismatches:
        cfg = pf["info"].get("config", {})
        site = pf["info"].get("site")
        key = (site, cfg.get("complex"), cfg.get("chain"))
        if site is None or key in seen:
            continue
        seen.add(key)
        if site.startswith("gradients:"):
            what = "%s (complex=%s, shape %s): autograd and central differences disagree, relative deviation %s (%s)" % (site.split(":")[1], cfg.get("complex"), cfg.get("shape"), cfg.get("relative_deviation"), cfg.get("detail"))
        elif site.endswith(".shape"):
            what = "%s: input (%s,3,%s,%s) -> latent %s -> output %s, range [%s, %s] (documented %s) %s" % (site, cfg.get("B"), cfg.get("H"), cfg.get("H"), cfg.get("latent"), cfg.get("out"), cfg.get("min"), cfg.get("max"), cfg.get("documented_range"), cfg.get("error", ""))
        elif site.endswith(".backward"):
            what = "DeepJSCCModel(%s, %s) on (%s,3,%s,%s): %s" % (cfg.get("arch"), cfg.get("chain"), cfg.get("B"), cfg.get("H"), cfg.get("H"), cfg.get("error") or ("no / zero / non-finite gradient on encoder parameters %s" % cfg.get("parameters_without_gradient")))
        else:
            what = "%s %s: implementation %s, layer arithmetic %s (op %s)" % (site, cfg, pf["impl"], pf.get("model"), pf["op"][:160])
        out.append({"site": site, "config": cfg, "what": what, "ops": [pf["op"][:300]], "impl_output": pf["impl"][:100], "kind": "failing-input"})
    return out[:12]


def finding_reproduces(ctx, f):
    return False


def replay(ctx, payload):
    print("replay: re-run ./check C19; op lines:", payload.get("ops"))
    return 0
