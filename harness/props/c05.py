"""C05 — noise-free modulation followed by hard demodulation returns the transmitted bits."""
import itertools
from ..runner import Op
from .. import modcat
from . import c14

ID = "C05"
KINDS = {"U": ["nearest_self", "memoryless_roundtrip", "memoryless_roundtrip_instances", "reject_non_multiple",
               "index_symbol_decision", "index_symbol_roundtrip", "oqpsk_roundtrip"],
         "K": ["binary_labelled_tables", "gray_index_mapping_witness", "C14.instances_ok (shared tables)"]}
PARTIAL = ["that float32 cos/sin/atan2/abs place a noise-free symbol on the intended table entry is IEEE arithmetic - validated by the correspondence on every symbol (pair), not proved",
           "DPSK is modelled on its decision variable: y[s]*conj(y[s-1]) is taken to be the phase-shift table entry"]
RULE = ("round-trip lines: real modulator (reset, eval) -> real demodulator vs the table-driven model; every b-bit group, every ordered symbol pair "
        "for schemes with memory, random long sequences, 1-D and batched; non-trivial = not all-zero bits")
ASSUMPTIONS = c14.ASSUMPTIONS

extract = c14.extract


def bstr(v):
    return "".join("1" if int(round(float(x))) else "0" for x in v) or "-"


def _rt(inst, x):
    """real round trip after reset, in evaluation mode"""
    import torch
    mod, dem = inst.mod, inst.demod
    for m in (mod, dem):
        m.eval()
        if hasattr(m, "reset_state"):
            m.reset_state()
    with torch.no_grad():
        y = mod(x)
        nsym = y.shape[-1]
        out = dem(y)
    return out, nsym


def expected(inst, bits):
    """what the property demands for this scheme (None: rejected length)"""
    b = inst.b
    if len(bits) % b:
        return None
    if inst.kind == "dpsk":
        return bits[b:]
    if inst.kind == "oqpsk":
        I, Q = bits[0::2], bits[1::2]
        Qd = [0] + Q[:-1]
        return [v for p in zip(I, Qd) for v in p]
    return bits


def sequences(ctx, inst):
    rng = ctx.rng
    b = inst.b
    M = 2 ** b
    grp = lambda s: [(s >> (b - 1 - k)) & 1 for k in range(b)]
    seqs = []
    if inst.memory:
        syms = range(M)
        pairs = list(itertools.product(syms, repeat=2))
        if len(pairs) > 64 and not ctx.thorough:
            pairs = rng.sample(pairs, 64)
        for a, c in pairs:
            seqs.append(grp(rng.randrange(M)) + grp(a) + grp(c))
    else:
        seqs.append([v for s in range(M) for v in grp(s)])          # every symbol once
        for s in (range(M) if M <= 64 else rng.sample(range(M), 64)):
            seqs.append(grp(s))
    for _ in range(8 if ctx.thorough else 3):
        n = rng.randint(2, 40)
        seqs.append([rng.getrandbits(1) for _ in range(n * b)])
    # long frames (block-wise / chunked implementations only show beyond their block length)
    for n in ([rng.randint(2050, 2600), rng.randint(4097, 5200)] if inst.memory or ctx.thorough else [rng.randint(2050, 4200)]):
        seqs.append([rng.getrandbits(1) for _ in range(n * b)])
    return seqs


def line_for(inst, bits):
    if inst.kind in ("bpsk", "qpsk", "psk", "qam", "pam"):
        return "rtml %s label %s" % (inst.name, bstr(bits))
    if inst.kind == "dpsk":
        return "rtdiff %s %s" % (inst.name, bstr(bits))
    if inst.kind == "oqpsk":
        return "rtoq %s" % bstr(bits)
    if inst.kind == "pi4":
        g = inst.params["gray"]
        return "rtalt pi4_g%d_a pi4_g%d_b pi4_g1_a pi4_g1_b %s" % (g, g, bstr(bits))
    return None


_CASES = {}


def corr(ctx):
    import torch
    ops = []
    tabs = c14._load(ctx)
    for name, (inst, pts, lo, hi) in tabs.items():
        ops.append(Op("deftable %s %d %s" % (name, inst.b, ";".join("%d,%d,%d" % p for p in pts)), "ok", nontrivial=False))
    import copy
    pristine = {name: (copy.deepcopy(inst.mod), copy.deepcopy(inst.demod)) for name, (inst, pts, lo, hi) in tabs.items() if inst.memory}   # never used in training mode
    for name, (inst, pts, lo, hi) in tabs.items():
        if inst.kind == "pi4" and name.endswith("_b"):
            continue
        site = "modulations:%s.roundtrip" % inst.kind
        cfg = {"inst": name, "kind": inst.kind, "gray": inst.gray, "order": len(pts)}
        for bits in sequences(ctx, inst):
            for layout in ("batch", "1d"):
                if layout == "1d" and (inst.kind == "pi4" or len(bits) > 40):
                    continue   # pi/4-QPSK 1-D mode is exercised separately (index mode)
                x = torch.tensor(bits, dtype=torch.float32)
                xin = x.reshape(1, -1).repeat(2, 1) if layout == "batch" else x
                try:
                    out, nsym = _rt(inst, xin)
                    rows = out.reshape(-1, out.shape[-1]) if layout == "batch" else out.reshape(1, -1)
                    impl = bstr(rows[0].tolist())
                    if layout == "batch" and not bool((rows[0] == rows[1]).all()):
                        impl += " rows-differ"
                    if nsym * inst.b != len(bits):
                        impl += " nsym=%d" % nsym
                except (ValueError, RuntimeError, IndexError) as e:
                    impl = "reject"
                want = expected(inst, bits)
                ok = (impl == "reject") if want is None else (impl == bstr(want))
                line = line_for(inst, bits)
                _CASES[line] = (name, bits)
                ops.append(Op(line, impl, nontrivial=any(bits), info={"site": site, "config": dict(cfg, layout=layout)}, prop_ok=ok))
                ctx.count("rt_" + inst.kind)
        # histories: earlier use of the same objects (training / evaluation mode, odd / even symbol counts, batched)
        # must not matter after reset_state() + eval()
        if inst.memory:
            rng = ctx.rng
            for mode in ("train", "eval"):
                for nprior in (1, 2, 3):
                    for order in ("reset-eval", "eval-reset"):
                        if order == "eval-reset" and (mode == "eval" or nprior == 2):
                            continue
                        bits = [rng.getrandbits(1) for _ in range(inst.b * rng.randint(2, 6))]
                        prior = torch.tensor([[rng.getrandbits(1) for _ in range(inst.b * nprior)]], dtype=torch.float32)
                        try:
                            for m_ in (inst.mod, inst.demod):
                                m_.train(mode == "train")
                            try:
                                with torch.no_grad():
                                    inst.demod(inst.mod(prior))
                            except (ValueError, RuntimeError, IndexError):
                                pass      # a too-short earlier call may be refused; the state it leaves behind still must not matter
                            if order == "eval-reset":
                                for m_ in (inst.mod, inst.demod):
                                    m_.eval()
                            out, nsym = _rt(inst, torch.tensor([bits], dtype=torch.float32))
                            impl = bstr(out.reshape(1, -1)[0].tolist())
                        except (ValueError, RuntimeError, IndexError):
                            impl = "reject"
                        finally:
                            for m_ in (inst.mod, inst.demod):
                                m_.eval()
                        want = expected(inst, bits)
                        try:
                            pm, pd = copy.deepcopy(pristine[name][0]), copy.deepcopy(pristine[name][1])
                            pm.eval(); pd.eval()
                            with torch.no_grad():
                                fresh = bstr(pd(pm(torch.tensor([bits], dtype=torch.float32))).reshape(1, -1)[0].tolist())
                        except (ValueError, RuntimeError, IndexError):
                            fresh = "reject"
                        hcfg = dict(cfg, layout="after-history", history="%s mode, %d symbols, %s" % (mode, nprior, order))
                        if fresh == bstr(want):
                            line = line_for(inst, bits)
                            _CASES[line] = (name, bits)
                            ops.append(Op(line, impl, nontrivial=True, info={"site": site, "config": hcfg}, prop_ok=(impl == bstr(want))))
                        else:
                            # an instance inside a listed finding (static label mismatch): the history must still not matter
                            ops.append(Op("rtoq -", "-", nontrivial=False, prop_ok=(impl == fresh),
                                          info={"site": "modulations:%s.history" % inst.kind, "config": dict(hcfg, bits=bstr(bits), impl=impl, fresh=fresh)}))
                        ctx.count("history_" + inst.kind)
        # evaluation mode, ONE reset, then several calls with odd / even symbol counts on the same objects: in evaluation mode a call must
        # not leave anything behind, so every call answers like a pristine pair
        if inst.memory:
            rng = ctx.rng
            try:
                for m_ in (inst.mod, inst.demod):
                    m_.eval()
                    if hasattr(m_, "reset_state"):
                        m_.reset_state()
                for call, nsy in enumerate((3, 1, 5, 2, 7)):
                    bits = [rng.getrandbits(1) for _ in range(inst.b * nsy)]
                    try:
                        with torch.no_grad():
                            impl = bstr(inst.demod(inst.mod(torch.tensor([bits], dtype=torch.float32))).reshape(1, -1)[0].tolist())
                    except (ValueError, RuntimeError, IndexError):
                        impl = "reject"
                    try:
                        pm, pd = copy.deepcopy(pristine[name][0]), copy.deepcopy(pristine[name][1])
                        pm.eval(); pd.eval()
                        with torch.no_grad():
                            fresh = bstr(pd(pm(torch.tensor([bits], dtype=torch.float32))).reshape(1, -1)[0].tolist())
                    except (ValueError, RuntimeError, IndexError):
                        fresh = "reject"
                    ops.append(Op("rtoq -", "-", nontrivial=False, prop_ok=(impl == fresh),
                                  info={"site": "modulations:%s.history" % inst.kind, "config": dict(cfg, layout="after-history", history="evaluation mode, one reset, call %d (%d symbols) without a reset in between" % (call, nsy), bits=bstr(bits), impl=impl, fresh=fresh)}))
                    ctx.count("history_eval_chain")
            finally:
                for m_ in (inst.mod, inst.demod):
                    m_.eval()
                    if hasattr(m_, "reset_state"):
                        m_.reset_state()
        # rejection of a non-multiple length
        if inst.b > 1 and inst.kind in ("qpsk", "psk", "qam", "pam"):
            bits = [1] * (inst.b + 1)
            try:
                _rt(inst, torch.tensor([bits], dtype=torch.float32)); impl = "accepted"
            except (ValueError, RuntimeError):
                impl = "reject"
            ops.append(Op(line_for(inst, bits), impl, info={"site": site, "config": dict(cfg, layout="non-multiple")}, prop_ok=impl == "reject"))
    # identity scheme and pi/4-QPSK 1-D mode: checked directly against the property (no table model)
    from kaira.modulations import identity, pi4qpsk
    x = torch.tensor([0., 1., 1., 0., 1.])
    idm, idd = identity.IdentityModulator(), identity.IdentityDemodulator()
    same = bool((idd(idm(x)) == x).all())
    ops.append(Op("rtoq -", "-", nontrivial=False, prop_ok=same, info={"site": "modulations:identity.roundtrip", "config": {"kind": "identity"}}))
    for g in (True, False):
        m, d = pi4qpsk.Pi4QPSKModulator(gray_coded=g), pi4qpsk.Pi4QPSKDemodulator()
        m.eval(); d.eval(); m.reset_state(); d.reset_state()
        bits = [0, 1, 1, 1, 0, 0, 1, 0]
        try:
            out = d(m(torch.tensor(bits, dtype=torch.float32)))
            impl = bstr(out.tolist()) if out.numel() == len(bits) else "shape:%s" % (tuple(out.shape),)
        except Exception as e:
            impl = "other:" + type(e).__name__
        ops.append(Op("rtoq -", "-", nontrivial=False, prop_ok=(impl == bstr(bits)),
                      info={"site": "modulations:pi4.roundtrip", "config": {"kind": "pi4", "gray": g, "layout": "1d", "impl": impl}}))
    return ops


def search(ctx, mismatches, broken, prop_fail):
    out, seen = [], set()
    for pf in prop_fail + mismatches:
        cfg = pf["info"].get("config", {})
        key = (pf["info"].get("site"), cfg.get("inst"), cfg.get("layout"), cfg.get("gray"))
        if key in seen or pf["info"].get("site") is None:
            continue
        seen.add(key)
        name, bits = _CASES.get(pf["op"], (cfg.get("inst"), None))
        if str(pf["info"].get("site")).endswith(".history"):
            out.append({"site": pf["info"]["site"], "config": cfg, "kind": "failing-input", "ops": [],
                        "what": "%s %s: after earlier use (%s) followed by reset_state() and eval(), bits %s come back as %s; a fresh pair returns %s" % (cfg.get("kind"), cfg.get("inst"), cfg.get("history"), cfg.get("bits"), cfg.get("impl"), cfg.get("fresh"))})
            continue
        what = "%s %s: noise-free round trip of bits %s returns %s" % (cfg.get("kind"), cfg.get("inst") or "", bstr(bits) if bits else "(see config)", pf["impl"] if pf["impl"] != "-" else cfg.get("impl"))
        out.append({"site": pf["info"]["site"], "config": cfg, "what": what, "ops": [pf["op"]], "impl_output": pf["impl"], "kind": "failing-input"})
    return out[:40]


def finding_reproduces(ctx, f):
    import torch
    tabs = c14._load(ctx)
    if f["id"] == "F-DPSKMAP":
        inst = tabs["dqpsk"][0]
        bits = [0, 0, 1, 0, 1, 1]
        out, _ = _rt(inst, torch.tensor([bits], dtype=torch.float32))
        return bstr(out[0].tolist()) != bstr(bits[2:])
    if f["id"] == "F-PI4-MAP":
        inst = tabs["pi4_g1_a"][0]
        bits = [1, 0, 1, 1]
        out, _ = _rt(inst, torch.tensor([bits], dtype=torch.float32))
        return bstr(out[0].tolist()) != bstr(bits)
    if f["id"] == "F-PI4-1D":
        from kaira.modulations import pi4qpsk
        m, d = pi4qpsk.Pi4QPSKModulator(gray_coded=False), pi4qpsk.Pi4QPSKDemodulator()
        m.eval(); d.eval()
        out = d(m(torch.tensor([0., 1, 1, 1, 0, 0, 1, 0])))
        return out.numel() != 8
    return False


def replay(ctx, payload):
    print("replay: re-run ./check C05; op lines:", payload.get("ops"))
    return 0
