"""Catalogue of modem instances and exact table extraction (shared by C05, C06, C14, C15)."""
from fractions import Fraction

def _scale_for(values):
    """smallest power of two that makes every float in `values` an integer"""
    s = 1
    for v in values:
        d = Fraction(float(v)).denominator
        if d & (d - 1):
            raise ValueError("not a dyadic rational: %r" % v)
        s = max(s, d)
    return s


class Inst:
    def __init__(self, name, mod, demod, b, gray, unit, by_label, llr_c, kind, table_attr="constellation", params=None, memory=False):
        self.name, self.mod, self.demod, self.b = name, mod, demod, b
        self.gray, self.unit, self.by_label, self.llr_c = gray, unit, by_label, llr_c
        self.kind, self.table_attr, self.params, self.memory = kind, table_attr, params or {}, memory

    def table(self):
        """[(re_int, im_int, label)] from the published buffers"""
        import torch
        c = getattr(self.mod, self.table_attr)
        if self.kind == "bpsk":
            labs = [0, 1]
        elif self.kind == "identity":
            labs = [0, 1]
        else:
            bp = self.mod.bit_patterns
            labs = [int("".join(str(int(x)) for x in row), 2) for row in bp.tolist()]
        zs = [complex(z) for z in c.tolist()]
        self.scale = _scale_for([z.real for z in zs] + [z.imag for z in zs])
        pts = []
        for z, l in zip(zs, labs):
            pts.append((int(Fraction(z.real) * self.scale), int(Fraction(z.imag) * self.scale), l))
        return pts

    def table_str(self):
        return ";".join("%d,%d,%d" % p for p in self.table())


def catalogue(thorough=True):
    """all schemes / orders / options that publish a constellation with bit labels"""
    from kaira.modulations import psk, qam, pam, dpsk, oqpsk, pi4qpsk, identity
    out = []
    out.append(Inst("bpsk", psk.BPSKModulator(), psk.BPSKDemodulator(), 1, True, True, True, Fraction(1, 2), "bpsk"))
    for norm in (True, False):
        out.append(Inst("qpsk_n%d" % norm, psk.QPSKModulator(normalize=norm), psk.QPSKDemodulator(normalize=norm), 2, True, norm, True, Fraction(1), "qpsk", params={"normalize": norm}))
    for M in (4, 8, 16, 32, 64):
        for g in (True, False):
            out.append(Inst("psk%d_g%d" % (M, g), psk.PSKModulator(M, gray_coding=g), psk.PSKDemodulator(M, gray_coding=g), M.bit_length() - 1, g, True, True, Fraction(1), "psk", params={"order": M, "gray": g}))
    for M in (4, 16, 64, 256):
        for g in (True, False):
            for norm in (True, False):
                out.append(Inst("qam%d_g%d_n%d" % (M, g, norm), qam.QAMModulator(M, gray_coding=g, normalize=norm), qam.QAMDemodulator(M, gray_coding=g, normalize=norm), M.bit_length() - 1, g, norm, True, Fraction(1, 2), "qam", params={"order": M, "gray": g, "normalize": norm}))
    for M in (2, 4, 8, 16, 32, 64):
        for g in (True, False):
            for norm in (True, False):
                out.append(Inst("pam%d_g%d_n%d" % (M, g, norm), pam.PAMModulator(M, gray_coding=g, normalize=norm), pam.PAMDemodulator(M, gray_coding=g, normalize=norm), M.bit_length() - 1, g, norm, True, Fraction(1, 2), "pam", params={"order": M, "gray": g, "normalize": norm}))
    for M in (2, 4, 8, 16):
        for g in (True, False):
            out.append(Inst("dpsk%d_g%d" % (M, g), dpsk.DPSKModulator(M, gray_coding=g), dpsk.DPSKDemodulator(M, gray_coding=g), M.bit_length() - 1, g, True, False, Fraction(1, 2), "dpsk", params={"order": M, "gray": g}, memory=True))
    # the same schemes reached through the alternative spellings of the constructor: the `gray_coded` alias, `bits_per_symbol`
    # instead of the order, and the modulation registry
    out.append(Inst("dpsk8_g0_alias", dpsk.DPSKModulator(8, gray_coded=False), dpsk.DPSKDemodulator(8, gray_coded=False), 3, False, True, False, Fraction(1, 2), "dpsk", params={"order": 8, "gray": False, "via": "gray_coded="}, memory=True))
    out.append(Inst("dpsk4_g0_bps", dpsk.DPSKModulator(bits_per_symbol=2, gray_coded=False), dpsk.DPSKDemodulator(bits_per_symbol=2, gray_coded=False), 2, False, True, False, Fraction(1, 2), "dpsk", params={"order": 4, "gray": False, "via": "bits_per_symbol="}, memory=True))
    try:
        from kaira.modulations.registry import ModulationRegistry as _MR
        out.append(Inst("dpsk16_g0_reg", _MR.create("dpskmodulator", order=16, gray_coded=False), _MR.create("dpskdemodulator", mode="demodulator", order=16, gray_coded=False), 4, False, True, False, Fraction(1, 2), "dpsk", params={"order": 16, "gray": False, "via": "registry"}, memory=True))
        out.append(Inst("psk8_g0_reg", _MR.create("pskmodulator", order=8, gray_coding=False), _MR.create("pskdemodulator", mode="demodulator", order=8, gray_coding=False), 3, False, True, True, Fraction(1), "psk", params={"order": 8, "gray": False, "via": "registry"}))
        out.append(Inst("qam16_g0_n1_reg", _MR.create("qammodulator", order=16, gray_coding=False, normalize=True), _MR.create("qamdemodulator", mode="demodulator", order=16, gray_coding=False, normalize=True), 4, False, True, True, Fraction(1, 2), "qam", params={"order": 16, "gray": False, "normalize": True, "via": "registry"}))
    except Exception as _e:
        REGISTRY_NOTE.append("registry instances not built: %s: %s" % (type(_e).__name__, _e))
    out.append(Inst("dbpsk", dpsk.DBPSKModulator(), dpsk.DBPSKDemodulator(), 1, False, True, False, Fraction(1, 2), "dpsk", params={"order": 2, "gray": False, "cls": "dbpsk"}, memory=True))
    out.append(Inst("dqpsk", dpsk.DQPSKModulator(), dpsk.DQPSKDemodulator(), 2, True, True, False, Fraction(1, 2), "dpsk", params={"order": 4, "gray": True, "cls": "dqpsk"}, memory=True))
    for norm in (True, False):
        out.append(Inst("oqpsk_n%d" % norm, oqpsk.OQPSKModulator(normalize=norm), oqpsk.OQPSKDemodulator(normalize=norm), 2, True, norm, True, Fraction(1), "oqpsk", params={"normalize": norm}, memory=True))
    for g in (True, False):
        m = pi4qpsk.Pi4QPSKModulator(gray_coded=g)
        out.append(Inst("pi4_g%d_a" % g, m, pi4qpsk.Pi4QPSKDemodulator(), 2, g, True, False, Fraction(1), "pi4", table_attr="qpsk", params={"gray": g}, memory=True))
        out.append(Inst("pi4_g%d_b" % g, m, pi4qpsk.Pi4QPSKDemodulator(), 2, g, True, False, Fraction(1), "pi4", table_attr="qpsk_rotated", params={"gray": g}, memory=True))
    return out


REGISTRY_NOTE = []


def dmin2(pts):
    best = None
    for i in range(len(pts)):
        for j in range(i + 1, len(pts)):
            d = (pts[i][0] - pts[j][0]) ** 2 + (pts[i][1] - pts[j][1]) ** 2
            if best is None or d < best:
                best = d
    return best


def near_pair(pts):
    best, arg = None, (0, 1)
    for i in range(len(pts)):
        for j in range(i + 1, len(pts)):
            d = (pts[i][0] - pts[j][0]) ** 2 + (pts[i][1] - pts[j][1]) ** 2
            if best is None or d < best:
                best, arg = d, (i, j)
    return arg


def lo_hi(pts, scale):
    """bounds around the minimum squared distance; exact for integer lattices, +-1e-4 for float tables"""
    d = dmin2(pts)
    if scale == 1:
        return d, d
    return d - d // 10000 - 1, d + d // 10000 + 1


def popcount(x):
    return bin(x).count("1")


def is_gray(pts, hi):
    for i in range(len(pts)):
        for j in range(i + 1, len(pts)):
            d = (pts[i][0] - pts[j][0]) ** 2 + (pts[i][1] - pts[j][1]) ** 2
            if d <= hi and popcount(pts[i][2] ^ pts[j][2]) != 1:
                return False, (i, j)
    return True, None


def lean_table(name, inst, pts, lo, hi, known_non_gray):
    body = ", ".join("⟨%d, %d, %d⟩" % p for p in pts)
    return ('  { name := "%s", table := { b := %d, pts := [%s] }, lo := %d, hi := %d, gray := %s, scale := %d, unit := %s, knownNonGray := %s, near := (%d, %d) }'
            % ((name, inst.b, body, lo, hi, str(inst.gray).lower(), inst.scale, str(inst.unit).lower(), str(known_non_gray).lower()) + near_pair(pts)))
