"""setup: write Generated/*.lean for every claimed property from /repo, then build everything."""
import importlib, json, os, sys, traceback
from . import leanio
from .runner import Ctx
from .leanio import LEAN, VERIF


def main():
    man = json.load(open(os.path.join(VERIF, "MANIFEST.json")))
    props = [c["property_id"] for c in man["checks"]]
    for p in props:
        mod = importlib.import_module("harness.props." + p.lower())
        try:
            text = mod.extract(Ctx(p, "quick", 0)) if hasattr(mod, "extract") else None
        except Exception:
            traceback.print_exc()
            text = None
        if isinstance(text, str):
            text = {p: text}
        for fname, body in (text or {}).items():
            leanio.write_if_changed(os.path.join(LEAN, "Generated", fname + ".lean"), body)
    ok, out, dt = leanio.lake_build(["kdriver"] + ["Theorems." + p for p in props], timeout=6000)
    print(out[-3000:])
    print("setup build ok=%s in %.0fs" % (ok, dt))
    # a failing theorem build is reported by the individual checks; only the driver is essential here
    ok2, out2, _ = leanio.lake_build(["kdriver"])
    sys.exit(0 if ok2 else 2)


if __name__ == "__main__":
    main()
